"""C02 - Every library linear operator is adjoint/inverse consistent and correct.

IndexOps.tla   (with C35) exact sparse matrices of the index-map operators: contraction / integration, transposition of sub-domains, value and
               field inserters, slicing (also centred), stepped python slices (SplitOperator), plus the C35 kinds; TLC: permutation /
               partial-permutation laws, slice lengths
spec -> code   dense matrix (forward and adjoint) of the real operator = the specification's matrix, for every instance
laws           for a catalogue of every exported linear operator class in several constructions: <y, A x> = <A^H y, x> (real part for
               real-linear operators), linearity, advertised inverses invert, outputs on the declared target, the input is not modified"""
import json

import numpy as np

from props.C35 import expected_matrix, fr
from vf import tlc as tlcmod
from vf.core import quiet


def dense(ift, op, cplx=False, mode="times"):
    A = op if mode == "times" else (op.inverse if mode == "inverse" else op.adjoint)
    dom = A.domain
    cols = []
    n = dom.size
    for i in range(n):
        e = np.zeros(n, dtype=complex if cplx else float)
        e[i] = 1.
        r = A(_mk(ift, dom, e))
        cols.append(_flat(ift, r))
    return np.array(cols).T


def _mk(ift, dom, v):
    if isinstance(dom, ift.MultiDomain):
        out, o = {}, 0
        for k in dom.keys():
            s = dom[k].size
            out[k] = ift.makeField(dom[k], v[o:o + s].reshape(dom[k].shape))
            o += s
        return ift.MultiField.from_dict(out, domain=dom)
    return ift.makeField(dom, v.reshape(dom.shape))


def _flat(ift, f):
    if isinstance(f, ift.MultiField):
        return np.concatenate([np.atleast_1d(f[k].asnumpy()).ravel() for k in f.domain.keys()])
    return np.atleast_1d(f.asnumpy()).ravel()


def check_spec_instance(ift, inst):
    k = inst["op"]
    sh = inst["shape"]
    out = []
    g2, g3, u2 = ift.RGSpace(2, 0.5), ift.RGSpace(3, 2.0), ift.UnstructuredDomain(2)
    E = expected_matrix(inst)
    try:
        if k == "contract":
            spaces = tuple(i for i in range(2) if sh[i])
            ops = [("ContractionOperator", ift.ContractionOperator((g2, g3), spaces, power=sh[2]))]
            if sh[2] == 1:
                ops.append(("IntegrationOperator", ift.IntegrationOperator((g2, g3), spaces)))
        elif k == "transpose":
            doms = (ift.UnstructuredDomain(2), ift.RGSpace(3), ift.RGSpace(2, 0.5))
            ops = [("TransposeOperator", ift.TransposeOperator(doms, tuple(p - 1 for p in sh)))]
        elif k == "valins":
            ops = [("ValueInserter", ift.ValueInserter(ift.RGSpace((2, 3)), tuple(sh)))]
        elif k == "dtins":
            tgt = (g3, u2) if sh[0] == 1 else (u2, g3)
            ops = [("DomainTupleFieldInserter", ift.DomainTupleFieldInserter(ift.DomainTuple.make(tgt), sh[0] - 1, (sh[1],)))]
        elif k == "slice":
            n, m, c = sh
            ops = [("SliceOperator", ift.SliceOperator(ift.RGSpace(n, 0.5), (m,), center=bool(c)))]
            # the same slice on the second of two sub-domains, the first one multi-axis and unchanged (None)
            ops.append(("SliceOperator on (RG(2,3), RG(n))", ift.SliceOperator((ift.RGSpace((2, 3)), ift.RGSpace(n, 0.5)), (None, (m,)), center=bool(c))))
            ops.append(("SliceOperator on (RG(n), U3)", ift.SliceOperator((ift.RGSpace(n, 0.5), ift.UnstructuredDomain(3)), ((m,), (3,)), center=bool(c))))
        elif k == "pyslice":
            n, a, b, st = sh
            ops = [("SplitOperator", ift.SplitOperator(ift.RGSpace(n), {"s": (slice(a, b, st),)}))]
        elif k == "fftshift":
            n1, n2, a1, a2 = sh
            ops = []
            if n2 == 1:
                ops.append(("FFTShiftOperator on RG(n)", ift.FFTShiftOperator(ift.RGSpace(n1))))
            else:
                two = (ift.RGSpace(n1), ift.RGSpace(n2, 0.5))
                spaces = tuple(i for i, a in enumerate((a1, a2)) if a)
                ops.append(("FFTShiftOperator on (RG(n1), RG(n2)) spaces=%s" % (spaces,), ift.FFTShiftOperator(two, spaces=spaces if len(spaces) > 1 else spaces[0])))
                if a1 and a2:
                    ops.append(("FFTShiftOperator on RG(n1, n2)", ift.FFTShiftOperator(ift.RGSpace((n1, n2)))))
                    ops.append(("FFTShiftOperator on (RG(n1), RG(n2)) spaces=None", ift.FFTShiftOperator(two)))
                elif a2:
                    ops.append(("FFTShiftOperator on (U(n1), RG(n2)) spaces=-1", ift.FFTShiftOperator((ift.UnstructuredDomain(n1), ift.RGSpace(n2)), spaces=-1)))
        elif k == "mf2vec":
            from nifty.cl.operators.multifield2vector import Multifield2Vector
            na, nb1, nb2 = sh
            ops = [("Multifield2Vector", Multifield2Vector(ift.MultiDomain.make({"a": ift.RGSpace(na), "b": ift.RGSpace((nb1, nb2))})))]
        else:
            return []
    except Exception as e:
        return ["%s %s: construction raised %s: %s" % (k, sh, type(e).__name__, str(e)[:140])]
    for name, op in ops:
        Ex = E
        if name.endswith("(RG(2,3), RG(n))"):
            Ex = np.kron(np.eye(6), E)
        elif name.endswith("(RG(n), U3)"):
            Ex = np.kron(E, np.eye(3))
        try:
            got = dense(ift, op)
            gadj = dense(ift, op, mode="adjoint")
        except Exception as e:
            out.append("%s %s: application raised %s: %s" % (name, sh, type(e).__name__, str(e)[:140]))
            continue
        if got.shape != Ex.shape or not np.allclose(got, Ex, atol=1e-13):
            out.append("%s %s: matrix %s, expected %s" % (name, sh, np.round(got, 6).tolist(), np.round(Ex, 6).tolist()))
        elif not np.allclose(gadj, Ex.T, atol=1e-13):
            out.append("%s %s: the adjoint is not the transpose" % (name, sh))
        if k == "fftshift":
            try:
                ginv = dense(ift, op, mode="inverse")
                if not np.allclose(ginv @ Ex, np.eye(Ex.shape[0]), atol=1e-13):
                    out.append("%s %s: the inverse does not undo the shift" % (name, sh))
            except Exception as e:
                out.append("%s %s: the inverse raised %s: %s" % (name, sh, type(e).__name__, str(e)[:100]))
        if k == "slice" and name == "SliceOperator" and abs(op.target[0].distances[0] - 0.5) > 1e-15:
            out.append("SliceOperator %s: the distances are not preserved" % sh)
    return out


def catalogue(ift):
    """(name, constructor) of linear operators in several constructions; constructors are called lazily so that a failing one is reported"""
    U2, U3 = ift.UnstructuredDomain(2), ift.UnstructuredDomain(3)
    G2, G3, G23 = ift.RGSpace(2, 0.5), ift.RGSpace(3, 2.0), ift.RGSpace((2, 3), (0.5, 1.5))
    G4, G6 = ift.RGSpace(4, 0.25), ift.RGSpace(6)
    H4 = G4.get_default_codomain()
    P4 = ift.PowerSpace(H4)
    rs = np.random.RandomState(1)
    fld = lambda dom, cplx=False: ift.makeField(dom, (rs.standard_normal(ift.DomainTuple.make(dom).shape) + (1j * rs.standard_normal(ift.DomainTuple.make(dom).shape) if cplx else 0)))
    md = ift.MultiDomain.make({"a": G2, "b": G3})
    C = [
        ("ScalingOperator(complex)", lambda: ift.ScalingOperator(G3, 1.5 - 2j)),
        ("DiagonalOperator(complex)", lambda: ift.DiagonalOperator(fld(G3, True))),
        ("DiagonalOperator(spaces=1)", lambda: ift.DiagonalOperator(fld(G3) + 3., domain=(U2, G3), spaces=1)),
        ("MatrixProductOperator", lambda: ift.MatrixProductOperator(G3, rs.standard_normal((3, 3)) + 1j * rs.standard_normal((3, 3)))),
        ("ContractionOperator", lambda: ift.ContractionOperator((G2, G3), 1, power=1)),
        ("IntegrationOperator", lambda: ift.IntegrationOperator((G2, P4), 1)),
        ("VdotOperator(complex)", lambda: ift.VdotOperator(fld((U2, G3), True))),
        ("ConjugationOperator", lambda: ift.ConjugationOperator(G3)),
        ("Realizer", lambda: ift.Realizer(G3)),
        ("Imaginizer", lambda: ift.Imaginizer(G3)),
        ("WeightApplier", lambda: _slo(ift).WeightApplier(ift.DomainTuple.make((G2, P4)), None, 1)),
        ("WeightApplier(power -1, space 1)", lambda: _slo(ift).WeightApplier(ift.DomainTuple.make((G2, P4)), 1, -1)),
        ("FieldAdapter", lambda: ift.FieldAdapter(G3, "a")),
        ("FieldAdapter.adjoint", lambda: ift.FieldAdapter(G3, "a").adjoint),
        ("ducktape_left", lambda: ift.ScalingOperator(G3, 2.).ducktape_left("k")),
        ("GeometryRemover", lambda: ift.GeometryRemover((G2, G3))),
        ("GeometryRemover(space=1)", lambda: ift.GeometryRemover((G2, G3), 1)),
        ("NullOperator", lambda: ift.NullOperator(G2, G3)),
        ("PartialExtractor", lambda: ift.PartialExtractor(md, ift.MultiDomain.make({"b": G3}))),
        ("PrependKey", lambda: ift.PrependKey(md, "x_")),
        ("DomainChangerAndReshaper", lambda: ift.DomainChangerAndReshaper(G6, G23)),
        ("ExtractAtIndices", lambda: ift.ExtractAtIndices(ift.DomainTuple.make((U2, G23)), ((0, 1, 1), (2, 0, 0)), space=1)),
        ("SqueezeOperator", lambda: ift.SqueezeOperator((ift.UnstructuredDomain(1), G3))),
        ("TransposeOperator", lambda: ift.TransposeOperator((U2, G3, G2), (2, 0, 1))),
        ("ValueInserter", lambda: ift.ValueInserter(G23, (1, 2))),
        ("DomainTupleFieldInserter", lambda: ift.DomainTupleFieldInserter(ift.DomainTuple.make((U2, G3, G2)), 1, (2,))),
        ("OuterProduct(real field)", lambda: ift.OuterProduct(G2, fld(G3))),
        ("OuterProduct(complex field)", lambda: ift.OuterProduct(G2, fld(G3, True))),
        ("SliceOperator", lambda: ift.SliceOperator((G6, U3), ((4,), None), center=False)),
        ("SliceOperator(center)", lambda: ift.SliceOperator((G6, U3), ((3,), (2,)), center=True)),
        ("SliceOperator(multi-axis sub-domain)", lambda: ift.SliceOperator((G4, U3, G23), ((3,), (2,), (2, 2)))),
        ("SplitOperator", lambda: ift.SplitOperator((G6, U2), {"p": (slice(0, 3), None), "q": (slice(1, 6, 2),), "r": ([0, 5], 1)})),
        ("SplitOperator(stepped slice)", lambda: ift.SplitOperator(G4, {"s": (slice(1, 4, 2),)})),
        ("MaskOperator", lambda: ift.MaskOperator(ift.makeField(G23, np.array([[True, False, False], [False, True, False]])))),
        ("FieldZeroPadder(central)", lambda: ift.FieldZeroPadder((U2, G4), (7,), space=1, central=True)),
        ("RegriddingOperator", lambda: ift.RegriddingOperator((U2, G6), (4,), space=1)),
        ("LinearInterpolator", lambda: ift.LinearInterpolator(G23, np.array([[0.3, 0.9, -0.2], [1.0, 4.1, 2.2]]))),
        ("FFTOperator", lambda: ift.FFTOperator(G4)),
        ("FFTOperator(space=1)", lambda: ift.FFTOperator((U2, G4), space=1)),
        ("HartleyOperator", lambda: ift.HartleyOperator(G23)),
        ("HarmonicTransformOperator", lambda: ift.HarmonicTransformOperator(H4)),
        ("SHTOperator", lambda: ift.SHTOperator(ift.LMSpace(3), ift.GLSpace(4))),
        ("HarmonicSmoothingOperator", lambda: ift.HarmonicSmoothingOperator(G4, 0.3)),
        ("PowerDistributor", lambda: ift.PowerDistributor(H4, P4)),
        ("DOFDistributor", lambda: ift.DOFDistributor(ift.makeField(G4, np.array([0, 1, 1, 2])))),
        ("SandwichOperator", lambda: ift.SandwichOperator.make(ift.MatrixProductOperator(G3, rs.standard_normal((3, 3))), ift.DiagonalOperator(fld(G3) ** 2 + 1.))),
        ("BlockDiagonalOperator", lambda: ift.BlockDiagonalOperator(md, {"a": ift.ScalingOperator(G2, 2.), "b": ift.DiagonalOperator(fld(G3) + 3.)})),
        ("SumOperator", lambda: ift.DiagonalOperator(fld(G3) + 3.) + ift.MatrixProductOperator(G3, rs.standard_normal((3, 3)))),
        ("ChainOperator", lambda: ift.FFTOperator(G4).inverse @ ift.DiagonalOperator(fld(H4) + 3.) @ ift.FFTOperator(G4)),
        ("LinearEinsum", lambda: ift.LinearEinsum(G3, ift.MultiField.from_dict({"v": fld(G2), "m": fld((G2, G3))}), "i,ij,j->ij", key_order=("v", "m"))),
        ("LinearEinsum(contraction)", lambda: ift.LinearEinsum(G3, ift.MultiField.from_dict({"v": fld(G2, True), "m": fld((G2, G3), True)}), "i,ij,j->i", key_order=("v", "m"))),
        ("LinearEinsum(transpose)", lambda: ift.LinearEinsum((G2, G3), ift.MultiField.from_dict({}), "ij->ji")),
        ("PartialConjugate", lambda: ift.PartialConjugate(md, ["a"]) if hasattr(ift, "PartialConjugate") else _partial_conjugate(ift, md)),
        ("LOSResponse", lambda: ift.LOSResponse(G23, np.array([[0.1, 0.3], [0.2, 2.9]]), np.array([[0.9, 0.2], [2.8, 0.4]]))),
        ("Nufft", lambda: ift.Nufft(G4, np.array([[0.3], [1.1], [-0.7]]), eps=1e-12)),
        ("FuncConvolutionOperator(RGSpace)", lambda: ift.FuncConvolutionOperator(G6, lambda x: np.exp(-(3. * x) ** 2))),
        ("FuncConvolutionOperator(RGSpace 2d, space=1)", lambda: ift.FuncConvolutionOperator((U2, G23), lambda x: 1. / (1. + x ** 2), space=1)),
        ("FuncConvolutionOperator(GLSpace)", lambda: ift.FuncConvolutionOperator(ift.GLSpace(4), lambda x: np.exp(-x ** 2))),
        ("FuncConvolutionOperator(HPSpace)", lambda: ift.FuncConvolutionOperator(ift.HPSpace(2), lambda x: np.exp(-x ** 2))),
        ("Multifield2Vector", lambda: _mf2v(ift)(md)),
        ("FFTShiftOperator", lambda: ift.FFTShiftOperator((U2, ift.RGSpace((3, 4))), spaces=1)),
        ("JaxLinearOperator", lambda: _jaxlin(ift, G3, U2)),
        ("Gridder", lambda: ift.Gridder(ift.RGSpace((4, 4), (0.5, 0.5)), uv=np.array([[0.1, 0.2], [-0.3, 0.4], [0.25, -0.15]]), eps=1e-10)),
    ]
    return C


def _mf2v(ift):
    import importlib
    return importlib.import_module("nifty.cl.operators.multifield2vector").Multifield2Vector


def _jaxlin(ift, dom, tgt):
    import jax
    jax.config.update("jax_enable_x64", True)
    import jax.numpy as jnp
    A = jnp.asarray([[1., -2., .5], [0., 3., 1.]])
    return ift.JaxLinearOperator(dom, tgt, lambda x: A @ x, func_T=lambda y: A.T @ y)


def _slo(ift):
    import importlib
    return importlib.import_module("nifty.cl.operators.simple_linear_operators")


def _partial_conjugate(ift, md):
    import importlib
    pc = importlib.import_module("nifty.cl.operators.partial_conjugate")
    return pc.PartialConjugate(md, ["a"])


REAL_LINEAR = {"ConjugationOperator", "Realizer", "Imaginizer", "PartialConjugate", "Nufft", "Gridder"}
COMPLEX_TO_REAL = ("Nufft", "Gridder")       # complex visibilities -> real image


def check_laws(ift, name, mk, rs):
    out = []
    try:
        op = mk()
    except Exception as e:
        return ["%s: construction raised %s: %s" % (name, type(e).__name__, str(e)[:140])]

    def rnd(dom, cplx):
        n = dom.size
        v = rs.standard_normal(n) + (1j * rs.standard_normal(n) if cplx else 0)
        return _mk(ift, dom, v)
    rl = name.split("(")[0] in REAL_LINEAR
    for cplx in (False, True):
        if name == "Imaginizer" and not cplx:
            continue              # takes complex input by definition
        try:
            x, y = rnd(op.domain, cplx or name in COMPLEX_TO_REAL), rnd(op.target, cplx and name not in COMPLEX_TO_REAL + ("Imaginizer",))
            x0 = _flat(ift, x).copy()
            Ax = op(x)
            if Ax.domain is not op.target:
                out.append("%s: the output lives on %s, the declared target is %s" % (name, Ax.domain, op.target))
            if not np.array_equal(_flat(ift, x), x0):
                out.append("%s: applying the operator modified its input" % name)
            lhs = np.vdot(_flat(ift, y), _flat(ift, Ax))
            rhs = np.vdot(_flat(ift, op.adjoint_times(y)), _flat(ift, x))
            scale = max(1., abs(lhs))
            if (abs(lhs.real - rhs.real) if rl else abs(lhs - rhs)) > 1e-9 * scale:
                out.append("%s (%s input): <y, A x> = %s but <A^H y, x> = %s" % (name, "complex" if cplx else "real", np.round(lhs, 9), np.round(rhs, 9)))
            x2 = rnd(op.domain, cplx or name in COMPLEX_TO_REAL)
            a = 1.7 if rl or not cplx else 1.7 - 0.4j
            lin = _flat(ift, op(a * x + x2)) - (a * _flat(ift, Ax) + _flat(ift, op(x2)))
            if np.max(np.abs(lin)) > 1e-9 * max(1., np.max(np.abs(_flat(ift, Ax)))):
                out.append("%s (%s input): not linear (deviation %.3g)" % (name, "complex" if cplx else "real", np.max(np.abs(lin))))
            if op.capability & op.INVERSE_TIMES:
                back = op.inverse_times(Ax)
                if not np.allclose(_flat(ift, back), _flat(ift, x), rtol=1e-9, atol=1e-10):
                    out.append("%s (%s input): the advertised inverse does not invert" % (name, "complex" if cplx else "real"))
                if op.capability & op.ADJOINT_INVERSE_TIMES:
                    back = op.adjoint_inverse_times(op.adjoint_times(y))
                    if not np.allclose(_flat(ift, back), _flat(ift, y), rtol=1e-9, atol=1e-10):
                        out.append("%s (%s input): the adjoint inverse does not invert the adjoint" % (name, "complex" if cplx else "real"))
        except Exception as e:
            if cplx and name.split("(")[0] in ("HartleyOperator", "HarmonicTransformOperator", "SHTOperator", "HarmonicSmoothingOperator", "LOSResponse"):
                continue        # documented as real-input operators
            out.append("%s (%s input): raised %s: %s" % (name, "complex" if cplx else "real", type(e).__name__, str(e)[:140]))
    return out


KINDS = ("contract", "transpose", "valins", "dtins", "slice", "pyslice", "fftshift", "mf2vec")
LAWS = "INVARIANT ShiftTwice\nINVARIANT RowSumsOne\nINVARIANT InRange\nINVARIANT PartialPermutation\nINVARIANT MaskOrder\nINVARIANT IsPermutation\nINVARIANT SliceLength\n"


def run(ctx):
    import nifty.cl as ift
    n = 0
    for kind in KINDS:
        r = ctx.tlc("IndexOps", 'CONSTANTS Kind = "%s"\nSPECIFICATION Spec\n' % kind + LAWS + "INVARIANT Emit\n", label=kind, workers=1, deadlock=False)
        with quiet():
            for inst in r.emitted:
                n += 1
                ctx.case((kind, json.dumps(inst["shape"])))
                for msg in check_spec_instance(ift, inst):
                    ctx.violation(dict(kind=kind, operator=msg.split(" ")[0]), msg[:600], replay=dict(instance=inst))
    # the exact matrices of C35's index-map operators belong to "the action equals the documented definition" as well: a third of them here
    from props.C35 import check_index_op
    for kind in ("interp1", "interp2", "regrid", "zeropad", "mask"):
        r = ctx.tlc("IndexOps", 'CONSTANTS Kind = "%s"\nSPECIFICATION Spec\n' % kind + LAWS + "INVARIANT Emit\n", label=kind, workers=1, deadlock=False)
        with quiet():
            for inst in r.emitted[ctx.seed % 3::3]:
                n += 1
                ctx.case((kind, json.dumps([inst["shape"], inst["dist"], inst["pts"]])))
                for msg in check_index_op(ift, inst):
                    ctx.violation(dict(kind=kind, operator=msg.split(" ")[0]), msg[:600], replay=dict(instance35=inst))
    rs = np.random.RandomState(11)
    cat = catalogue(ift)
    with quiet():
        for name, mk in cat:
            ctx.case(("laws", name))
            for msg in check_laws(ift, name, mk, rs):
                ctx.violation(dict(kind="laws", operator=name.split("(")[0], what=("adjoint" if "<y, A x>" in msg else msg.split(": ")[1][:20] if ": " in msg else "")), msg, replay=dict(law=name))
    ctx.traces += n + len(cat)
    ctx.notes.update(spec_instances=n, catalogue=len(cat))
    ctx.sample(dict(catalogue=[c[0] for c in cat][:12]))
    ctx.assume("laws are checked on one construction or a few per class with seeded random vectors (1e-9); operators documented for real input are not fed complex input",
               "the harmonic, padding, regridding, interpolation, mask, line-of-sight and non-uniform Fourier operators have exact specifications in C09 / C35; the operator algebra in C01")


def replay(ctx, doc):
    import nifty.cl as ift
    c = doc["case"]
    with quiet():
        if "instance35" in c:
            from props.C35 import check_index_op
            msgs = check_index_op(ift, c["instance35"])
        elif "instance" in c:
            msgs = check_spec_instance(ift, c["instance"])
        else:
            mk = dict(catalogue(ift))[c["law"]]
            msgs = check_laws(ift, c["law"], mk, np.random.RandomState(11))
    for m in msgs:
        ctx.violation(doc.get("key", dict(kind="replay")), m[:600], replay=c)
    ctx.case("replay")
    ctx.case("replay2")
    ctx.sample(dict(replayed=list(c.keys())))
    ctx.states = ctx.transitions = 1


def selftest(ctx):
    import nifty.cl as ift
    r = tlcmod.run("IndexOps", 'CONSTANTS Kind = "transpose"\nSPECIFICATION Spec\nINVARIANT Emit\n', workers=1, timeout=900, deadlock=False)
    inst = next(i for i in r.emitted if i["shape"] == [2, 3, 1])
    with quiet():
        good = check_spec_instance(ift, inst)
        inst["ent"][0][1] = (inst["ent"][0][1] + 1) % 12
        bad = check_spec_instance(ift, inst)
    return dict(ok=(good == [] and len(bad) > 0), mutation="one entry of the expected permutation moved")
