"""Shared by C18 / C19 / C20: the linear Gaussian models of LinGauss.tla in nifty.cl and nifty.re, and the extraction of the linear map
(excitations -> residual sample) by unit excitations."""
import numpy as np

from vf import tlc as tlcmod


def rv(v):
    return v[0] / v[1]


def mat(M):
    return np.array([[rv(x) for x in row] for row in M])


def emit_models(ctx, label="linear Gaussian models"):
    r = ctx.tlc("LinGauss", "SPECIFICATION Spec\nINVARIANT Law\nINVARIANT Emit\n", label=label, workers=1, deadlock=False, timeout=1500)
    if len(r.emitted) < 20:
        raise tlcmod.MachineryError("too few models: %d" % len(r.emitted))
    return r.emitted


class ClModel:
    def __init__(self, inst, tol=1e-13):
        import nifty.cl as ift
        self.ift = ift
        self.R = np.array(inst["R"], dtype=float)
        self.ninv = np.array([rv(x) for x in inst["ninv"]])
        self.d = np.array(inst["d"], dtype=float)
        self.da, self.dd = (ift.DomainTuple.make(ift.UnstructuredDomain(n)) for n in (2, 2))
        self.db = ift.DomainTuple.scalar_domain()
        # key a: a square matrix; key b (one number): broadcast to the data space and multiplied with the third column of R
        self.Rop = (ift.MatrixProductOperator(self.da, self.R[:, :2]) @ ift.FieldAdapter(self.da, "a")
                    + ift.makeOp(ift.makeField(self.dd, self.R[:, 2].copy())) @ ift.ContractionOperator(self.dd, None).adjoint @ ift.FieldAdapter(self.db, "b"))
        self.Ninv = ift.DiagonalOperator(ift.makeField(self.dd, self.ninv), sampling_dtype=np.float64)
        self.lh = ift.GaussianEnergy(data=ift.makeField(self.dd, self.d), inverse_covariance=self.Ninv) @ self.Rop
        self.ic = ift.GradientNormController(tol_abs_gradnorm=tol, iteration_limit=200)
        self.H = ift.StandardHamiltonian(self.lh, ic_samp=self.ic, prior_sampling_dtype=np.float64)
        self.dom = self.Rop.domain

    def field(self, v):
        ift = self.ift
        v = np.asarray(v, dtype=float).ravel()
        return ift.MultiField.from_dict({"a": ift.makeField(self.da, v[:2].copy()), "b": ift.makeField(self.db, np.array(v[2]))}, domain=self.dom)

    @staticmethod
    def flat(mf):
        return np.concatenate([mf["a"].asnumpy().ravel(), mf["b"].asnumpy().ravel()]) if "b" in mf.keys() and "a" in mf.keys() else None


def jax_env():
    import jax
    jax.config.update("jax_enable_x64", True)
    import jax.numpy as jnp
    import nifty.re as jft
    return jax, jnp, jft


class ReModel:
    def __init__(self, inst, env):
        jax, jnp, jft = env
        self.env = env
        self.R = jnp.asarray(np.array(inst["R"], dtype=float))
        self.ninv = jnp.asarray(np.array([rv(x) for x in inst["ninv"]]))
        self.d = jnp.asarray(np.array(inst["d"], dtype=float))
        R = self.R

        def fwd(x):
            return R[:, :2] @ x["a"] + R[:, 2:3] @ x["b"]
        self.fwd = fwd
        nstd_inv = jnp.sqrt(self.ninv)
        self.lh = jft.Gaussian(self.d, noise_cov_inv=lambda x: self.ninv * x, noise_std_inv=lambda x: nstd_inv * x).amend(
            fwd, domain=jft.Vector({"a": jft.ShapeWithDtype((2,)), "b": jft.ShapeWithDtype((1,))}))

    def pos(self, v):
        jax, jnp, jft = self.env
        v = np.asarray(v, dtype=float).ravel()
        return jft.Vector({"a": jnp.asarray(v[:2]), "b": jnp.asarray(v[2:3])})

    @staticmethod
    def flat(vec):
        t = vec.tree if hasattr(vec, "tree") else vec
        # (the residual of a point-estimated key is returned as a broadcastable zero of shape (1,))
        return np.concatenate([np.broadcast_to(np.asarray(t["a"]).ravel(), (2,)), np.broadcast_to(np.asarray(t["b"]).ravel(), (1,))])
