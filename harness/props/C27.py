"""C27 - The classic VI driver accepts every documented configuration.

OptimizeKLConfig.tla   the driver's phases over an option vector, one or two consecutive calls in one process
TLC                    Completes / RngRestored / OwnFilesOnly / ReturnConsistent / FilesFollowOptions for every valid
                       vector of the control-relevant options; the defective transcription (Fixed=FALSE) is refuted
spec -> code           a seeded t-wise covering array over ALL option values is handed to TLC, which predicts the
                       observables of each vector; the real driver is run on every vector back-to-back in one process
code -> spec           the driver's use of the global RNG stack is recorded from outside during those runs and validated by
                       RandomCtxTrace.tla (the stack is back at its initial state after every call)"""
import itertools
import json
import os
import random
import re
import shutil
import traceback
import warnings

import numpy as np

from vf import tlc as tlcmod
from vf import trace as tracemod
from vf.core import quiet
from vf.rngrec import RngRecorder

OPTS = dict(outdir=["0", "1"], sanity=["0", "1"], strategy=["all", "latest"], eplot=["0", "1"], mplot=["0", "1"],
            constants=["0", "1"], pointest=["0", "1"], nsamp=["0", "1", "2", "fn"], transitions=["0", "1"],
            inspect=["none", "1", "2"], terminate=["0", "1"], fresh=["1", "fn"], dry=["0", "1"], retpos=["0", "1"],
            export=["0", "1"], nonlin=["0", "1"], initpos=["0", "1"], initidx=["0", "1"], resume=["0", "1"])
KEYS = sorted(OPTS)


def valid(o):
    if o["resume"] == "1" and (o["outdir"] == "0" or o["initidx"] == "1"):
        return False
    return True


def covering(rng, t, extra_random):
    """greedy seeded t-wise covering array over OPTS restricted to valid vectors"""
    need = set()
    for ks in itertools.combinations(KEYS, t):
        for vs in itertools.product(*[OPTS[k] for k in ks]):
            probe = dict(zip(ks, vs))
            if probe.get("resume") == "1" and (probe.get("outdir") == "0" or probe.get("initidx") == "1"):
                continue
            need.add(tuple(zip(ks, vs)))
    rows = []
    while need:
        best, bestc = None, -1
        for _ in range(40):
            o = {k: rng.choice(v) for k, v in OPTS.items()}
            # steer towards an uncovered tuple
            tup = rng.choice(list(need)) if len(need) < 2000 or rng.random() < 0.5 else next(iter(need))
            o.update(dict(tup))
            if not valid(o):
                continue
            c = sum(1 for ks in itertools.combinations(KEYS, t) if tuple((k, o[k]) for k in ks) in need)
            if c > bestc:
                best, bestc = o, c
        if best is None or bestc <= 0:
            continue
        rows.append(best)
        for ks in itertools.combinations(KEYS, t):
            need.discard(tuple((k, best[k]) for k in ks))
    while extra_random > 0:
        o = {k: rng.choice(v) for k, v in OPTS.items()}
        if valid(o):
            rows.append(o)
            extra_random -= 1
    return rows


# ---- the real driver ---------------------------------------------------------------------------------------
def build_kwargs(ift, o, odir, total, calls, resume=None):
    dom = ift.RGSpace(4)
    d = ift.makeField(dom, np.array([1., 2., 3., 4.]))
    a = ift.FieldAdapter(dom, "a")
    b = ift.FieldAdapter(dom, "b")
    lh = ift.GaussianEnergy(d, ift.ScalingOperator(dom, 4., np.float64)) @ (a * b.exp())
    ic = ift.AbsDeltaEnergyController(1e-6, iteration_limit=5)
    mini = ift.NewtonCG(ift.AbsDeltaEnergyController(1e-6, iteration_limit=2))
    kw = dict(likelihood_energy=lh, total_iterations=total, kl_minimizer=mini, sampling_iteration_controller=ic)
    kw["output_directory"] = odir if o["outdir"] == "1" else None
    kw["sanity_checks"] = o["sanity"] == "1"
    kw["save_strategy"] = o["strategy"]
    kw["plot_energy_history"] = o["eplot"] == "1"
    kw["plot_minisanity_history"] = o["mplot"] == "1"
    kw["constants"] = ["a"] if o["constants"] == "1" else []
    kw["point_estimates"] = ["b"] if o["pointest"] == "1" else []
    kw["n_samples"] = {"0": 0, "1": 1, "2": 2, "fn": (lambda i: 1 if i == 0 else 0)}[o["nsamp"]]
    kw["transitions"] = (lambda i: None if i == 0 else (lambda sl: sl.average())) if o["transitions"] == "1" else None
    kw["inspect_callback"] = {"none": None, "1": (lambda sl: calls.append((1, sl.n_samples))),
                              "2": (lambda sl, i: calls.append((2, i, sl.n_samples)))}[o["inspect"]]
    kw["terminate_callback"] = (lambda i: True) if o["terminate"] == "1" else None
    kw["fresh_stochasticity"] = (lambda i: i == 0) if o["fresh"] == "fn" else True
    kw["dry_run"] = o["dry"] == "1"
    kw["return_final_position"] = o["retpos"] == "1"
    kw["export_operator_outputs"] = {"sig": a} if o["export"] == "1" else {}
    kw["nonlinear_sampling_minimizer"] = ift.NewtonCG(ift.AbsDeltaEnergyController(1e-6, iteration_limit=2)) if o["nonlin"] == "1" else None
    kw["initial_position"] = ift.MultiField.from_dict({"a": ift.makeField(dom, np.full(4, .1)), "b": ift.makeField(dom, np.full(4, .2))}) if o["initpos"] == "1" else None
    kw["initial_index"] = 1 if o["initidx"] == "1" else 0
    kw["resume"] = (o["resume"] == "1") if resume is None else resume
    return kw


def classify(root):
    """files of an output directory -> set of (class, name) in the vocabulary of OptimizeKLConfig.tla"""
    out = set()
    if not os.path.isdir(root):
        return out

    def nm(s):
        if s == "latest":
            return -1
        m = re.fullmatch(r"iteration_(\d+)", s)
        return int(m.group(1)) if m else None
    for dp, _dn, fns in os.walk(root):
        rel = os.path.relpath(dp, root)
        for f in fns:
            if rel == "." and f == "last_finished_iteration":
                out.add(("marker", -2))
            elif rel == "." and f == "minisanity.txt":
                out.add(("minisanity.txt", -2))
            elif rel == "." and f == "counting_report.txt":
                out.add(("counting.txt", -2))
            elif rel == "pickle" and f == "nifty_random_state":
                out.add(("rstate", -2))
            elif rel == "pickle" and (m := re.fullmatch(r"(latest|iteration_\d+)\.(\d+|mean)\.pickle", f)):
                out.add(("samples", nm(m.group(1))))
            elif rel == "pickle" and (m := re.fullmatch(r"energy_history_(latest|iteration_\d+)", f)):
                out.add(("ehist", nm(m.group(1))))
            elif rel == "pickle" and (m := re.fullmatch(r"minisanity_history_(latest|iteration_\d+)", f)):
                out.add(("mhist", nm(m.group(1))))
            elif rel == "energy_history" and (m := re.fullmatch(r"energy_(?:change_)?history_(latest|iteration_\d+)\.png", f)):
                out.add(("eplot", nm(m.group(1))))
            elif rel == "minisanity_history" and (m := re.fullmatch(r"minisanity_history_(latest|iteration_\d+)\.png", f)):
                out.add(("mplot", nm(m.group(1))))
            elif rel == "sig" and (m := re.fullmatch(r"(latest|iteration_\d+)\.hdf5", f)):
                out.add(("export", nm(m.group(1))))
            else:
                out.add(("other:" + os.path.join(rel, f), -3))
    return out


def listing(root):
    res = {}
    if root and os.path.isdir(root):
        for dp, _dn, fns in os.walk(root):
            for f in fns:
                p = os.path.join(dp, f)
                st = os.stat(p)
                res[p] = (st.st_size, st.st_mtime_ns)
    return res


def run_vector(ift, R, o, odir, prev_dir, niter):
    """run the real driver once (twice for a resume vector: a first phase produces the state to resume from)"""
    obs = dict(exc=None, depth=0, nret=None, tuple=None, insp=[], files=[], foreign=False, mean_ok=True)
    calls = []
    d0 = len(R._sseq)
    before_prev = listing(prev_dir)
    try:
        with warnings.catch_warnings():
            warnings.simplefilter("ignore")
            if (o["resume"] == "1" or (o["initidx"] == "1" and o["outdir"] == "1")) and o["dry"] == "0":
                o1 = dict(o, terminate="0", inspect="none", initidx="0")
                ift.optimize_kl(**build_kwargs(ift, o1, odir, 1, [], resume=False))
                if len(R._sseq) != d0:
                    obs["exc"] = "first phase left the RNG stack at depth %+d" % (len(R._sseq) - d0)
            res = ift.optimize_kl(**build_kwargs(ift, o, odir, niter, calls))
        if isinstance(res, tuple):
            obs["tuple"] = True
            sl, mean = res
            obs["mean_ok"] = isinstance(mean, ift.MultiField)
        else:
            obs["tuple"] = False
            sl = res
        obs["nret"] = int(sl.n_samples)
    except Exception as e:
        tb = traceback.extract_tb(e.__traceback__)[-1]
        obs["exc"] = "%s: %s @ %s:%d" % (type(e).__name__, str(e)[:120], os.path.basename(tb.filename), tb.lineno)
    obs["depth"] = len(R._sseq) - d0
    while len(R._sseq) > d0:
        R.pop_sseq()
    obs["insp"] = calls
    obs["files"] = sorted(classify(odir))
    obs["foreign"] = listing(prev_dir) != before_prev
    return obs


MCCFG = """CONSTANTS NIter = %d
Fixed = %s
TwoCalls = %s
FromFile = %s
EmitPred = %s
SPECIFICATION Spec
"""
INVS = "INVARIANT Completes\nINVARIANT RngRestored\nINVARIANT OwnFilesOnly\nINVARIANT ReturnConsistent\nPROPERTY FilesFollowOptions\n"


def compare(ctx, o, pred, obs, niter, where):
    """property clauses -> violations; everything else -> drift"""
    key = {k: o[k] for k in KEYS}
    short = ",".join("%s=%s" % (k, o[k]) for k in KEYS if o[k] not in ("0", "none"))

    def viol(kind, what):
        ctx.violation(dict(kind=kind, **{k: o[k] for k in ("outdir", "sanity", "dry", "terminate", "resume", "nsamp", "strategy")}),
                      "%s: %s  [%s] (%s)" % (kind, what, short, where), replay=dict(opt=key, observed=obs, predicted=pred, niter=niter))
    if obs["exc"]:
        viol("does-not-complete", obs["exc"])
        return
    if obs["depth"] != 0:
        viol("rng-stack", "global RNG stack depth changed by %+d" % obs["depth"])
    if obs["foreign"]:
        viol("foreign-files", "files of a previous call's output directory were created or modified by a call with other options")
    if o["outdir"] == "0" and obs["files"]:
        viol("files-without-directory", "files written although no output directory was given: %s" % obs["files"][:4])
    if obs["nret"] != pred["nret"]:
        viol("result", "returned sample list has %s samples, the options imply %s" % (obs["nret"], pred["nret"]))
    if obs["tuple"] != (o["retpos"] == "1") or not obs["mean_ok"]:
        viol("result", "return shape does not follow return_final_position")
    exp_insp = list(pred["insp"])
    if o["inspect"] != "none":
        got = [c[1] for c in obs["insp"]] if o["inspect"] == "2" else None
        if len(obs["insp"]) != len(exp_insp) or (got is not None and got != exp_insp) or any(c[0] != int(o["inspect"]) for c in obs["insp"]):
            viol("callbacks", "inspect_callback calls %s, expected iterations %s with arity %s" % (obs["insp"], exp_insp, o["inspect"]))
    if o["outdir"] == "1":
        have = {(c, n) for c, n in obs["files"]}
        want = {(f["cls"], f["name"]) for f in pred["files"]}
        missing = want - have
        if missing:
            viol("files", "expected output files missing: %s" % sorted(missing)[:5])
        extra = {x for x in have - want if not (o["resume"] == "1" or o["initidx"] == "1")}
        if extra:
            ctx.add_drift("files beyond the model's prediction for [%s]: %s" % (short, sorted(extra)[:5]))


def run(ctx):
    import matplotlib
    matplotlib.use("Agg")
    import nifty.cl as ift
    from nifty.cl import random as R
    q = ctx.quick
    niter = 2
    ctx.constants.update(NIter=niter)
    # ---- the model ---------------------------------------------------------------------------------------
    ctx.tlc("OptimizeKLConfig", MCCFG % (niter, "TRUE", "FALSE", "FALSE", "FALSE") + INVS, label="one call, all control options", coverage=not q)
    ctx.tlc("OptimizeKLConfig", MCCFG % (niter, "TRUE", "TRUE", "FALSE", "FALSE") + INVS, label="two calls in one process")
    if not q:
        ctx.tlc("OptimizeKLConfig", MCCFG % (3, "TRUE", "FALSE", "FALSE", "FALSE") + INVS, label="one call, 3 iterations")
    for inv in ("NeverDry", "NeverTerminates"):
        r = ctx.tlc("OptimizeKLConfig", MCCFG % (niter, "TRUE", "FALSE", "FALSE", "FALSE") + "INVARIANT %s\n" % inv, label="witness " + inv, expect_ok=False)
        if r.violated != inv:
            raise tlcmod.MachineryError("vacuity witness %s not refuted" % inv)
    r = ctx.tlc("OptimizeKLConfig", MCCFG % (niter, "FALSE", "TRUE", "FALSE", "FALSE") + INVS, label="defects D7/D8/D24 on the model", expect_ok=False)
    if not r.violated:
        raise tlcmod.MachineryError("the transcription of the defective driver is not refuted")
    # ---- covering array, predictions by TLC ------------------------------------------------------------------
    rng = random.Random(ctx.seed * 101 + 7)
    rows = covering(rng, 2, 12) if q else covering(rng, 3, 150)
    os.makedirs(tlcmod.RUNROOT, exist_ok=True)
    of = os.path.join(tlcmod.RUNROOT, "C27-opts-%d.json" % os.getpid())
    with open(of, "w") as f:
        json.dump(rows, f)
    try:
        p = ctx.tlc("OptimizeKLConfig", MCCFG % (niter, "TRUE", "FALSE", "TRUE", "TRUE") + INVS + "INVARIANT Emit\n", label="predict %d vectors" % len(rows),
                    workers=1, env=dict(OPT_FILE=of))
    finally:
        os.remove(of)
    preds = {json.dumps(d["opt"], sort_keys=True): d for d in p.emitted}
    # ---- the real driver, back to back in one process ---------------------------------------------------------
    base = os.path.join(tlcmod.RUNROOT, "C27-out-%d" % os.getpid())
    shutil.rmtree(base, ignore_errors=True)
    traces = []
    prev_dir = None
    try:
        with RngRecorder() as rec, quiet():
            for i, o in enumerate(rows):
                pred = preds.get(json.dumps(o, sort_keys=True))
                if pred is None:
                    raise tlcmod.MachineryError("TLC produced no prediction for %r" % o)
                odir = os.path.join(base, "run%d" % i)
                R.push_sseq_from_seed(1000 + i)
                rec.start_trace()
                obs = run_vector(ift, R, o, odir, prev_dir, niter)
                tr = rec.end_trace()
                R.pop_sseq()
                traces.append(tr)
                ctx.case(tuple(o[k] for k in KEYS))
                compare(ctx, o, pred, obs, niter, "call %d of the back-to-back sequence" % i)
                if i == 0:
                    ctx.sample(dict(option_vector=o, predicted=dict(nret=pred["nret"], done=pred["done"], files=pred["files"][:6]),
                                    observed=dict(nret=obs["nret"], depth=obs["depth"], files=obs["files"][:6])))
                if o["outdir"] == "1" and os.path.isdir(odir):
                    if prev_dir and prev_dir != odir:
                        shutil.rmtree(prev_dir, ignore_errors=True)
                    prev_dir = odir
    finally:
        shutil.rmtree(base, ignore_errors=True)
    ctx.traces += len(rows)
    # ---- code -> spec: the driver's use of the RNG stack -------------------------------------------------------
    tv = tracemod.validate(ctx, "RandomCtxTrace", traces, cfg="SPECIFICATION TSpec\nCONSTRAINT Progress\nPOSTCONDITION Report\nINVARIANT Balanced\n",
                           label="RNG events of %d driver calls" % len(traces))
    if tv.tlc.violated:
        ctx.violation(dict(kind="rng-stack", source="trace"), "RNG stack not back at its initial state at the end of a recorded driver call (%s)" % tv.tlc.violated,
                      replay=dict(trace=tv.tlc.error_trace[:3000]))
    for tid, l, clause in tv.propfail:
        ctx.violation(dict(kind="rng-trace", clause=clause), "driver call %d, RNG event %d: %s" % (tid, l, clause), replay=dict(opt=rows[tid], trace=traces[tid][:l + 2]))
    for tid in tv.rejected:
        if not any(t == tid for t, _, _ in tv.propfail):
            ctx.add_drift("RNG trace of driver call %d rejected at event %d: %r" % (tid, tv.maxl[tid] + 1, traces[tid][tv.maxl[tid]]))
    ctx.notes["covering"] = dict(strength=2 if q else 3, vectors=len(rows), rng_events=sum(len(t) for t in traces), rng_traces_accepted=tv.accepted)
    ctx.assume("resume=1 is exercised as: a first call with the same options and one iteration, then the resuming call",
               "initial_index=1 with an output directory is exercised the documented way ('if optimize_kl is called multiple times'): an earlier call "
               "has finished iteration 0 in the same directory (a fresh directory lacks the minisanity history the driver continues)",
               "options that the model fixes in the exhaustive run (constants, point estimates, transitions, nonlinear sampling, initial position, "
               "return_final_position, fresh_stochasticity) do not influence the control skeleton; they are covered by the replayed vectors")


def replay(ctx, doc):
    import matplotlib
    matplotlib.use("Agg")
    import nifty.cl as ift
    from nifty.cl import random as R
    case = doc["case"]
    o = case["opt"]
    base = os.path.join(tlcmod.RUNROOT, "C27-replay-%d" % os.getpid())
    try:
        with quiet():
            obs = run_vector(ift, R, o, os.path.join(base, "run"), None, case.get("niter", 2))
        compare(ctx, o, case["predicted"], obs, case.get("niter", 2), "replay")
    finally:
        shutil.rmtree(base, ignore_errors=True)
    ctx.case("replay")
    ctx.case("replay2")
    ctx.sample(dict(option_vector=o, observed=obs))
    ctx.states = ctx.transitions = 1


def selftest(ctx):
    """a corrupted prediction must be noticed by the comparison"""
    o = {k: v[0] for k, v in OPTS.items()}
    o.update(nsamp="1")
    pred = dict(nret=4, insp=[], done=[0, 1], files=[])
    obs = dict(exc=None, depth=0, nret=2, tuple=False, insp=[], files=[], foreign=False, mean_ok=True)
    n0 = len(ctx.violations)
    compare(ctx, o, pred, obs, 2, "selftest")
    ok = len(ctx.violations) == n0 + 1
    del ctx.violations[n0:]
    return dict(ok=ok, mutation="prediction nret 2 -> 4")
