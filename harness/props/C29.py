"""C29 - Gauss-Markov processes have the exact continuous-time covariance.

GaussMarkov.tla  the covariance recursion of Wiener / Ornstein-Uhlenbeck / integrated Wiener processes as a transition system over
                 time steps (non-uniform grids, time-varying parameters) in exact rationals; TLC: closed forms = recursion
spec -> code     every complete behaviour (grid, parameters, full covariance, propagator) is replayed: the linear map xi -> path of
                 nifty.re.gauss_markov (functions, model classes, the generic generator with explicit matrices) is extracted by unit
                 excitations and L L^T compared with the specification; the response to the initial state with the propagator"""
import json

import numpy as np

from vf import tlc as tlcmod
from vf.core import quiet

CFG = 'CONSTANTS Kind = "%s"\nNSteps = %d\nVaryParams = %s\nStationary = FALSE\nSPECIFICATION Spec\n'
SCFG = 'CONSTANTS Kind = "ou"\nNSteps = %d\nVaryParams = %s\nStationary = TRUE\nSPECIFICATION Spec\n'
LAWS = "INVARIANT RefineLaw\nINVARIANT WienerClosed\nINVARIANT OUClosed\nINVARIANT OUStationary\nINVARIANT OUCross\nINVARIANT IWPVelocity\nINVARIANT IWPClosed\nINVARIANT NonNegative\n"


def q(v):
    return v["n"] / v["d"]


def expected(inst):
    """full covariance ((n+1)*D square) and propagator from the emitted record"""
    n1 = len(inst["cov"])
    D = len(inst["cov"][0][0])
    C = np.zeros((n1, D, n1, D))
    for b in range(n1):
        for a in range(b + 1):
            M = np.array([[q(x) for x in row] for row in inst["cov"][b][a]])     # Cov(s_a, s_b)
            C[a, :, b, :] = M
            C[b, :, a, :] = M.T
    P = np.array([[[q(x) for x in row] for row in inst["prop"][b]] for b in range(n1)])
    return C.reshape(n1 * D, n1 * D), P, D


def paths(jenv, inst, variant):
    """returns f(xi, x0) -> array (n+1, D) for the chosen implementation"""
    jax, jnp, jft, gm = jenv
    kind = inst["kind"]
    st = inst["steps"]
    n = len(st)
    dt = np.array([q(s["dt"]) for s in st])
    sig = np.sqrt(np.array([q(s["s2"]) for s in st]))
    asp = np.array([q(s["asp"]) for s in st])
    rho = np.array([q(s["rho"]) for s in st])
    const = all(s["s2"] == st[0]["s2"] and s["asp"] == st[0]["asp"] and s["rho"] == st[0]["rho"] for s in st)
    uniform = all(s["dt"] == st[0]["dt"] for s in st)
    scal = variant.endswith("scalar")
    if scal and not const:
        return None
    sg = float(sig[0]) if scal else jnp.asarray(sig)
    if kind == "wiener":
        if variant.startswith("fn"):
            return lambda xi, x0: gm.wiener_process(xi[:, 0], x0[0], sg, jnp.asarray(dt))[:, None]
        if variant.startswith("model"):
            m = gm.WienerProcess(0., sg, (float(dt[0]) if uniform and scal else jnp.asarray(dt)), name="w", N_steps=n)
            return lambda xi, x0: (gm.WienerProcess(float(x0[0]), sg, (float(dt[0]) if uniform and scal else jnp.asarray(dt)), name="w", N_steps=n)({"w": xi[:, 0]}))[:, None]
        if variant == "generic":
            return lambda xi, x0: gm.discrete_gauss_markov_process(xi, x0, jnp.ones((n, 1, 1)), jnp.asarray(sig * np.sqrt(dt))[:, None, None])
        if variant == "generic-constdrift":
            return lambda xi, x0: gm.discrete_gauss_markov_process(xi, x0, jnp.ones((1, 1)), jnp.asarray(sig * np.sqrt(dt))[:, None, None])
    if kind == "ou":
        gam = -np.log(rho) / dt
        gg = float(gam[0]) if scal and uniform else jnp.asarray(gam)
        if scal and not uniform:
            return None
        if variant.startswith("fn"):
            return lambda xi, x0: gm.ornstein_uhlenbeck_process(xi[:, 0], x0[0], sg, gg, (float(dt[0]) if scal else jnp.asarray(dt)))[:, None]
        if variant.startswith("model"):
            return lambda xi, x0: (gm.OrnsteinUhlenbeckProcess(sg, gg, (float(dt[0]) if scal else jnp.asarray(dt)), name="o", x0=gm.Model(lambda x: x["x0"], domain={"x0": jft.ShapeWithDtype(())}), N_steps=n)(
                {"o": xi[:, 0], "x0": x0[0]}))[:, None]
        if variant == "generic":
            return lambda xi, x0: gm.discrete_gauss_markov_process(xi, x0, jnp.asarray(rho)[:, None, None], jnp.asarray(sig * np.sqrt(1 - rho ** 2))[:, None, None])
        if variant == "generic-constdrift" and len(set(rho.tolist())) == 1:
            return lambda xi, x0: gm.discrete_gauss_markov_process(xi, x0, float(rho[0]), jnp.asarray(sig * np.sqrt(1 - rho ** 2))[:, None, None])
        if variant == "generic-constamp" and const:
            return lambda xi, x0: gm.discrete_gauss_markov_process(xi, x0, jnp.asarray(rho)[:, None, None], float(sig[0] * np.sqrt(1 - rho[0] ** 2)))
    if kind == "iwp":
        aa = float(asp[0]) if scal else jnp.asarray(asp)
        if variant.startswith("fn"):
            return lambda xi, x0: gm.integrated_wiener_process(xi, x0, sg, (float(dt[0]) if scal and uniform else jnp.asarray(dt)), aa)
        if variant.startswith("model"):
            return lambda xi, x0: gm.IntegratedWienerProcess(gm.Model(lambda x: x["x0"], domain={"x0": jft.ShapeWithDtype((2,))}), sg, (float(dt[0]) if scal and uniform else jnp.asarray(dt)),
                                                             name="i", asperity=aa, N_steps=n)({"i": xi, "x0": x0})
        if variant.startswith("generic"):
            Fs = np.array([[[1., d], [0., 1.]] for d in dt])
            Ls = []
            for d, s, a in zip(dt, sig, asp):
                Q = s ** 2 * np.array([[d ** 3 / 3 + a * d, d ** 2 / 2], [d ** 2 / 2, d]])
                Ls.append(np.linalg.cholesky(Q))
            if variant == "generic":
                return lambda xi, x0: gm.discrete_gauss_markov_process(xi, x0, jnp.asarray(Fs), jnp.asarray(np.array(Ls)))
            if variant == "generic-constdrift" and uniform:      # one drift matrix for all steps, a diffusion matrix per step
                return lambda xi, x0: gm.discrete_gauss_markov_process(xi, x0, jnp.asarray(Fs[0]), jnp.asarray(np.array(Ls)))
            if variant == "generic-constamp" and uniform and const:
                return lambda xi, x0: gm.discrete_gauss_markov_process(xi, x0, jnp.asarray(Fs), jnp.asarray(Ls[0]))
            if variant == "generic-constboth" and uniform and const:
                return lambda xi, x0: gm.discrete_gauss_markov_process(xi, x0, jnp.asarray(Fs[0]), jnp.asarray(Ls[0]))
            return None
    return None


def check_instance(jenv, inst):
    jax, jnp, jft, gm = jenv
    out = []
    C, P, D = expected(inst)
    n = len(inst["steps"])
    if inst.get("stationary"):
        return check_stationary(jenv, inst, C)
    for variant in ("fn", "fn-scalar", "model", "model-scalar", "generic", "generic-constdrift", "generic-constamp", "generic-constboth"):
        try:
            f = paths(jenv, inst, variant)
            if f is None:
                continue
            x0 = jnp.zeros(D)
            base = np.asarray(f(jnp.zeros((n, D)), x0), dtype=float)
            if base.shape != (n + 1, D):
                out.append("%s: path of shape %s, expected %s (the initial state followed by one state per step)" % (variant, base.shape, (n + 1, D)))
                continue
            L = np.zeros(((n + 1) * D, n * D))
            for i in range(n):
                for c in range(D):
                    xi = np.zeros((n, D))
                    xi[i, c] = 1.
                    L[:, i * D + c] = (np.asarray(f(jnp.asarray(xi), x0), dtype=float) - base).ravel()
            # linearity in the excitations
            xi = np.arange(1., n * D + 1).reshape(n, D) / 3.
            lin = np.asarray(f(jnp.asarray(xi), x0), dtype=float).ravel() - base.ravel()
            if not np.allclose(lin, L @ xi.ravel(), atol=1e-10):
                out.append("%s: the path is not linear in the excitations" % variant)
            got = L @ L.T
            if not np.allclose(got, C, atol=1e-10, rtol=1e-10):
                i, j = np.unravel_index(np.argmax(np.abs(got - C)), C.shape)
                out.append("%s: Cov(state %d comp %d, state %d comp %d) = %.12g, the continuous-time process has %.12g" % (
                    variant, i // D, i % D, j // D, j % D, got[i, j], C[i, j]))
            # response to the initial state
            for c in range(D):
                e = np.zeros(D)
                e[c] = 1.
                r = np.asarray(f(jnp.zeros((n, D)), jnp.asarray(e)), dtype=float) - base
                if not np.allclose(r, P[:, :, c], atol=1e-10):
                    out.append("%s: response to the initial state component %d is %s, expected %s" % (variant, c, r.ravel().tolist(), P[:, :, c].ravel().tolist()))
        except Exception as e:
            out.append("%s: raised %s: %s" % (variant, type(e).__name__, str(e)[:140]))
    out += check_refined(jenv, inst, C, D)
    return out


def check_refined(jenv, inst, C, D, m=128):
    """RefineLaw on the code: the same process on a grid with every step cut into m equal pieces has the same covariance at the old grid points
    (constant parameters; the process functions compute their transition from the step length, fine steps reach their small-step branches)"""
    jax, jnp, jft, gm = jenv
    out = []
    st = inst["steps"]
    if not all(s["s2"] == st[0]["s2"] and s["asp"] == st[0]["asp"] and s["rho"] == st[0]["rho"] for s in st) or not all(s["dt"] == st[0]["dt"] for s in st):
        return out
    kind = inst["kind"]
    n = len(st)
    dt = np.repeat(np.array([q(s["dt"]) for s in st]) / m, m)
    sig = float(np.sqrt(q(st[0]["s2"])))
    N = n * m
    try:
        if kind == "wiener":
            f = lambda xi: gm.wiener_process(xi[:, 0], 0., sig, jnp.asarray(dt))[:, None]
        elif kind == "ou":
            gam = float(-np.log(q(st[0]["rho"])) / q(st[0]["dt"]))
            f = lambda xi: gm.ornstein_uhlenbeck_process(xi[:, 0], 0., sig, gam, jnp.asarray(dt))[:, None]
        else:
            f = lambda xi: gm.integrated_wiener_process(xi, jnp.zeros(2), sig, jnp.asarray(dt), float(q(st[0]["asp"])))
        J = np.asarray(jax.jacfwd(lambda xi: f(xi).reshape(-1))(jnp.zeros((N, D))), dtype=float).reshape((N + 1) * D, N * D)
        rows = np.array([k * m * D + c for k in range(n + 1) for c in range(D)])
        got = J[rows] @ J[rows].T
        if not np.allclose(got, C, rtol=1e-9, atol=1e-10):
            i, j = np.unravel_index(np.argmax(np.abs(got - C)), C.shape)
            out.append("refined grid (every step cut into %d): Cov(state %d comp %d, state %d comp %d) = %.12g at the old grid points, the continuous-time process has %.12g" % (
                m, i // D, i % D, j // D, j % D, got[i, j], C[i, j]))
    except Exception as e:
        out.append("refined grid: raised %s: %s" % (type(e).__name__, str(e)[:140]))
    return out


def check_stationary(jenv, inst, C):
    """OrnsteinUhlenbeckProcess without an initial state: x_0 = xi_0 sigma_0 is part of the excitations"""
    jax, jnp, jft, gm = jenv
    out = []
    st = inst["steps"]
    n = len(st)
    dt = np.array([q(s["dt"]) for s in st])
    sig = np.sqrt(np.array([q(s["s2"]) for s in st]))
    rho = np.array([q(s["rho"]) for s in st])
    gam = -np.log(rho) / dt
    const = len(set(sig.tolist())) == 1
    for variant in ("array", "scalar"):
        if variant == "scalar" and not const:
            continue
        try:
            m = gm.OrnsteinUhlenbeckProcess(float(sig[0]) if variant == "scalar" else jnp.asarray(sig), jnp.asarray(gam), jnp.asarray(dt), name="o")
            L = np.zeros((n + 1, n + 1))
            for i in range(n + 1):
                e = np.zeros(n + 1)
                e[i] = 1.
                L[:, i] = np.asarray(m({"o": jnp.asarray(e[1:]), "o_x0": jnp.asarray(e[0])}), dtype=float)
            got = L @ L.T
            if not np.allclose(got, C, atol=1e-10):
                i, j = np.unravel_index(np.argmax(np.abs(got - C)), C.shape)
                out.append("model without initial state (%s sigma): Cov(x_%d, x_%d) = %.12g, the process started in the steady state of its first step has %.12g" % (variant, i, j, got[i, j], C[i, j]))
        except Exception as e:
            out.append("model without initial state (%s sigma): raised %s: %s" % (variant, type(e).__name__, str(e)[:140]))
    return out


def _jenv():
    import jax
    jax.config.update("jax_enable_x64", True)
    import jax.numpy as jnp
    import nifty.re as jft
    import importlib
    return jax, jnp, jft, importlib.import_module("nifty.re.gauss_markov")


_JE = []


def _work(inst):
    import logging
    logging.disable(logging.CRITICAL)
    if not _JE:
        _JE.append(_jenv())
    with quiet():
        return check_instance(_JE[0], inst)


def run(ctx):
    import multiprocessing as mp
    from concurrent.futures import ProcessPoolExecutor
    q_ = ctx.quick
    insts = []
    for kind in ("wiener", "ou", "iwp"):
        n = 3 if q_ else 4
        ctx.tlc("GaussMarkov", CFG % (kind, n + 1, "TRUE") + LAWS + "CHECK_DEADLOCK FALSE\n", label="%s, %d steps, laws" % (kind, n + 1), timeout=2500)
        r = ctx.tlc("GaussMarkov", CFG % (kind, n, "TRUE") + "INVARIANT NeverVaries\nCHECK_DEADLOCK FALSE\n", label="witness NeverVaries " + kind, expect_ok=False)
        if r.violated != "NeverVaries":
            raise tlcmod.MachineryError("vacuity witness not refuted")
        # emission: all behaviours with constant parameters (3 steps) and a simulated sample of the time-varying ones
        e = ctx.tlc("GaussMarkov", CFG % (kind, 2 if q_ else 3, "FALSE") + "INVARIANT Emit\nCHECK_DEADLOCK FALSE\n", label="emit %s constant parameters" % kind, workers=1, timeout=1500)
        s = ctx.tlc("GaussMarkov", CFG % (kind, n, "TRUE") + "INVARIANT Emit\nCHECK_DEADLOCK FALSE\n", label="simulate %s time-varying" % kind, workers=1,
                    simulate=(40 if q_ else 400), depth=n + 1, seed=ctx.seed + 29, timeout=1500)
        insts += e.emitted + s.emitted
    ctx.tlc("GaussMarkov", SCFG % (3, "TRUE") + LAWS + "CHECK_DEADLOCK FALSE\n", label="ou steady-state start, laws", timeout=2500)
    e = ctx.tlc("GaussMarkov", SCFG % (2, "TRUE") + "INVARIANT Emit\nCHECK_DEADLOCK FALSE\n", label="emit ou steady-state start", workers=1, timeout=1500)
    insts += e.emitted
    if len(insts) < 100:
        raise tlcmod.MachineryError("too few instances: %d" % len(insts))
    seen = set()
    todo = []
    for inst in insts:
        key = json.dumps([inst["kind"], inst.get("stationary"), inst["steps"]], sort_keys=True)
        if key not in seen:
            seen.add(key)
            todo.append(inst)
            ctx.case(key)
    with ProcessPoolExecutor(14, mp_context=mp.get_context("spawn")) as ex:
        results = list(ex.map(_work, todo, chunksize=4))
    if True:
        for inst, msgs in zip(todo, results):
            for msg in msgs:
                ctx.violation(dict(kind=inst["kind"], variant=msg.split(":")[0]), "%s steps %s: %s" % (
                    inst["kind"], [(q(s["dt"]), q(s["s2"]), q(s["asp"]), q(s["rho"])) for s in inst["steps"]], msg), replay=dict(instance=inst))
    ctx.traces += len(seen)
    ctx.sample(dict(instance={k: insts[len(insts) // 2][k] for k in ("kind", "steps")}))
    ctx.assume("covariances are those of the process started at a deterministic initial state; the Ornstein-Uhlenbeck damping is given through "
               "rho = exp(-gamma dt) in {1/2, 1/4} (gamma = -ln(rho)/dt is computed in floating point)",
               "L L^T is compared to 1e-10 (float64)")


def replay(ctx, doc):
    c = doc["case"]
    with quiet():
        for msg in check_instance(_jenv(), c["instance"]):
            ctx.violation(doc.get("key", dict(kind=c["instance"]["kind"])), msg, replay=c)
    ctx.case("replay")
    ctx.case("replay2")
    ctx.sample(dict(replayed=c["instance"]["steps"]))
    ctx.states = ctx.transitions = 1


def selftest(ctx):
    r = tlcmod.run("GaussMarkov", CFG % ("iwp", 2, "FALSE") + "INVARIANT Emit\nCHECK_DEADLOCK FALSE\n", workers=1, timeout=900)
    inst = r.emitted[0]
    jenv = _jenv()
    with quiet():
        good = check_instance(jenv, inst)
        inst["cov"][2][1][0][1]["n"] += 1
        bad = check_instance(jenv, inst)
    return dict(ok=(good == [] and len(bad) > 0), mutation="one entry of the expected covariance changed")
