"""C08 - Domain geometry is self-consistent and domain identity is canonical.

PowerBins.tla     harmonic regular grids (1-2 axes, 4 distances per axis) with natural and custom binnings, exact in Rat: squared
                  k-length and bin of every pixel, unique lengths, counts and volumes of the bins; TLC: bins partition the grid, sum
                  of bin volumes = partner volume, natural bins are non-empty (456 configurations); closed form of the LMSpace size
DomainCache.tla   the canonical-object cache through every entry point (DomainTuple.make, makeDomain, MultiDomain.make in either key
                  order, union, pickling); TLC: Canonical for all call histories
spec -> code      every configuration is built as RGSpace / PowerSpace and compared exactly (k-lengths, unique k-lengths, pindex,
                  volumes, mean k-length per bin from the member list, refusal of empty bins); every call history is replayed and
                  the partition of object identities compared with the model's (also == and hash; pickling in a fresh process)
laws on real      total volume = sum of pixel volumes and scalar volume = per-pixel volumes for RG (position and harmonic), GL, HP, LM,
                  power and DOF spaces"""
import json
import math
import pickle
import subprocess
import sys

import numpy as np

from vf import tlc as tlcmod
from vf.core import quiet


def q(v):
    return v["n"] / v["d"]


def build_spaces(ift, c):
    d = tuple(q(x) for x in c["d"])
    sp = ift.RGSpace(tuple(c["shape"]), distances=d, harmonic=True)
    return sp


def check_config(ift, c):
    out = []
    sp = build_spaces(ift, c)
    n = int(np.prod(c["shape"]))
    pix = sorted(c["pix"], key=lambda p: p["flat"])
    k2 = np.array([q(p["k2"]) for p in pix])
    bins = np.array([p["bin"] for p in pix])
    if abs(sp.scalar_dvol - q(c["pdvol"])) > 1e-15 or abs(sp.total_volume - n * q(c["pdvol"])) > 1e-12 * sp.total_volume:
        out.append("volume of the harmonic grid: scalar_dvol %r total %r, expected %r and %r" % (sp.scalar_dvol, sp.total_volume, q(c["pdvol"]), n * q(c["pdvol"])))
    k = sp.get_k_length_array().asnumpy().ravel()
    if not np.allclose(k ** 2, k2, rtol=1e-13, atol=1e-15):
        out.append("k-length array differs from min(i, n-i) d per axis")
    if c["binning"] == "natural":
        u = sp.get_unique_k_lengths()
        ur = np.sqrt(np.array([q(x["k2"]) for x in sorted(c["uniq"], key=lambda x: x["rank"])]))
        if len(u) != len(ur) or not np.allclose(u, ur, rtol=1e-13):
            out.append("unique k-lengths %s differ from the distinct lengths %s" % (u.tolist(), ur.tolist()))
        try:
            ps = ift.PowerSpace(sp)
        except Exception as e:
            return out + ["natural PowerSpace raised %s: %s" % (type(e).__name__, e)], None
    else:
        bb = np.array([q(b) for b in c["bounds"]])
        try:
            ps = ift.PowerSpace(sp, binbounds=bb)
            if not c["valid"]:
                out.append("PowerSpace with bin bounds %s was constructed although a bin is empty" % bb.tolist())
                return out, None
        except ValueError:
            if c["valid"]:
                out.append("PowerSpace with bin bounds %s is refused although every bin has pixels" % bb.tolist())
            return out, None
    pi = ps.pindex.ravel()
    nb = c["nbin"]
    if ps.shape[0] != nb or not np.array_equal(pi, bins):
        out.append("pindex %s differs from the bin of each pixel %s" % (pi.tolist(), bins.tolist()))
        return out, ps
    dv = np.array([q(b["dvol"]) for b in sorted(c["bins"], key=lambda b: b["bin"])])
    if not np.allclose(ps.dvol, dv, rtol=1e-13):
        out.append("bin volumes %s differ from count x pixel volume %s" % (np.asarray(ps.dvol).tolist(), dv.tolist()))
    km = np.array([np.mean(np.sqrt(k2[bins == b])) for b in range(nb)])
    if not np.allclose(ps.k_lengths, km, rtol=1e-13, atol=1e-15):
        out.append("mean k-length per bin %s differs from the average over member pixels %s" % (np.asarray(ps.k_lengths).tolist(), km.tolist()))
    if abs(ps.total_volume - sp.total_volume) > 1e-12 * sp.total_volume:
        out.append("total volume of the power space %r differs from its partner's %r" % (ps.total_volume, sp.total_volume))
    if ift.PowerSpace(sp, binbounds=ps.binbounds) is not None and ift.PowerSpace(sp, binbounds=ps.binbounds) != ps:
        out.append("two PowerSpaces with the same description compare unequal")
    return out, ps


def geometry_laws(ift):
    """total volume = sum of pixel volumes; scalar volume agrees with per-pixel volumes"""
    out = []
    spaces = []
    for shape in [(4,), (5,), (3, 4), (2, 3, 4), (6, 2)]:
        for dist in [None, 0.5, tuple(0.25 * (i + 1) for i in range(len(shape)))]:
            for harm in (False, True):
                spaces.append(ift.RGSpace(shape, dist, harmonic=harm))
    spaces += [ift.GLSpace(n, m) for n, m in ((2, 3), (3, 5), (4, 8))] + [ift.HPSpace(n) for n in (1, 2, 4)]
    spaces += [ift.LMSpace(l, m) for l in range(0, 5) for m in range(0, l + 1)]
    spaces += [ift.PowerSpace(ift.RGSpace((4, 4), harmonic=True)), ift.DOFSpace(np.array([0, 1, 1, 2, 0], dtype=np.int64)) if hasattr(ift, "DOFSpace") else ift.UnstructuredDomain(3)]
    n = 0
    for sp in spaces:
        n += 1
        if isinstance(sp, (ift.UnstructuredDomain, ift.LMSpace)):
            if isinstance(sp, ift.LMSpace):
                lmax, mmax = sp.lmax, sp.mmax
                exp = (lmax + 1) + 2 * ((mmax * (2 * lmax - mmax + 1)) // 2)
                if sp.size != exp:
                    out.append("LMSpace(%d,%d) has size %d, expected %d" % (lmax, mmax, sp.size, exp))
            continue
        dv = sp.dvol
        tot = float(np.sum(dv)) if not np.isscalar(dv) else float(dv) * sp.size
        if abs(tot - sp.total_volume) > 1e-12 * abs(sp.total_volume):
            out.append("%r: total_volume %r differs from the sum of the pixel volumes %r" % (sp, sp.total_volume, tot))
        sd = sp.scalar_dvol
        if sd is not None and not np.allclose(dv, sd, rtol=1e-13):
            out.append("%r: scalar_dvol %r disagrees with dvol" % (sp, sd))
        if isinstance(sp, (ift.GLSpace, ift.HPSpace)) and abs(sp.total_volume - 4 * math.pi) > 1e-12:
            out.append("%r: the sphere has volume %r, not 4 pi" % (sp, sp.total_volume))
    # default partner domains (closed forms asserted in PowerBins.tla)
    for sp in spaces:
        try:
            if isinstance(sp, ift.RGSpace):
                cd = sp.get_default_codomain()
                if cd.harmonic == sp.harmonic or cd.shape != sp.shape or not np.allclose(np.array(sp.shape) * np.array(sp.distances) * np.array(cd.distances), 1., rtol=1e-14):
                    out.append("%r: the default partner %r does not have pixels of size 1 / (n d)" % (sp, cd))
                if cd.get_default_codomain() != sp or not np.allclose(cd.get_default_codomain().distances, sp.distances, rtol=1e-14):
                    out.append("%r: the partner of the default partner is %r" % (sp, cd.get_default_codomain()))
                sp.check_codomain(cd)
                if not np.isclose(np.prod(sp.extents) if hasattr(sp, "extents") else sp.total_volume, sp.total_volume, rtol=1e-14):
                    out.append("%r: the product of the extents %r is not the total volume %r" % (sp, sp.extents, sp.total_volume))
                for wrong, why in ((ift.RGSpace(sp.shape, tuple(2. * x for x in cd.distances), harmonic=cd.harmonic), "distances"), (ift.RGSpace(sp.shape, cd.distances, harmonic=sp.harmonic), "harmonic flag")):
                    try:
                        sp.check_codomain(wrong)
                        out.append("%r: check_codomain accepts a partner with wrong %s" % (sp, why))
                    except (AttributeError, TypeError, ValueError):
                        pass
            elif isinstance(sp, ift.LMSpace):
                gl = sp.get_default_codomain()
                if (gl.nlat, gl.nlon) != (sp.lmax + 1, 2 * sp.mmax + 1):
                    out.append("LMSpace(%d,%d): default partner GLSpace(%d,%d), documented (lmax + 1, 2 mmax + 1)" % (sp.lmax, sp.mmax, gl.nlat, gl.nlon))
                back = gl.get_default_codomain()
                if (back.lmax, back.mmax) != (sp.lmax, sp.mmax):
                    out.append("LMSpace(%d,%d) -> %r -> LMSpace(%d,%d): the round trip changes the band limit" % (sp.lmax, sp.mmax, gl, back.lmax, back.mmax))
                sp.check_codomain(gl)
            elif isinstance(sp, ift.GLSpace):
                lm = sp.get_default_codomain()
                if (lm.lmax, lm.mmax) != (max(sp.nlon // 2, sp.nlat - 1), sp.nlon // 2):
                    out.append("%r: default partner LMSpace(%d,%d)" % (sp, lm.lmax, lm.mmax))
                sp.check_codomain(lm)
            elif isinstance(sp, ift.HPSpace):
                lm = sp.get_default_codomain()
                if (lm.lmax, lm.mmax) != (2 * sp.nside, 2 * sp.nside):
                    out.append("%r: default partner LMSpace(%d,%d), documented lmax = mmax = 2 nside" % (sp, lm.lmax, lm.mmax))
                sp.check_codomain(lm)
        except Exception as e:
            out.append("%r: partner domain functions raised %s: %s" % (sp, type(e).__name__, str(e)[:100]))
    return out, n


def check_lm(ift, c):
    """LMSpace(lmax, mmax) and its natural power space against LMBins.tla"""
    out = []
    sp = ift.LMSpace(c["lmax"], c["mmax"])
    if sp.size != c["size"]:
        out.append("size %d, expected %d" % (sp.size, c["size"]))
    kl = np.asarray(sp.get_k_length_array().asnumpy())
    got = [int(np.sum(kl == l)) for l in range(c["lmax"] + 1)]
    if got != c["counts"] or len(kl) != c["size"]:
        out.append("k-length array holds %s coefficients per l, expected %s" % (got, c["counts"]))
    uk = np.asarray(sp.get_unique_k_lengths())
    if not np.array_equal(uk, np.arange(c["lmax"] + 1)):
        out.append("unique k-lengths %s, the k-length array has %s" % (uk.tolist(), sorted(set(kl.tolist()))))
    try:
        ps = ift.PowerSpace(sp)
        pin = np.asarray(ps.pindex.asnumpy() if hasattr(ps.pindex, "asnumpy") else ps.pindex)
        cnt = [int(np.sum(pin == b)) for b in range(ps.shape[0])]
        if ps.shape[0] != c["lmax"] + 1 or cnt != c["counts"]:
            out.append("natural power space has %d bins with populations %s, expected %d bins with %s" % (ps.shape[0], cnt, c["lmax"] + 1, c["counts"]))
        elif not np.allclose(np.asarray(ps.dvol), c["counts"]) or not np.allclose(np.asarray(ps.k_lengths), np.arange(c["lmax"] + 1)):
            out.append("natural power space: bin volumes %s / k-lengths %s, expected %s / 0..lmax" % (np.asarray(ps.dvol).tolist(), np.asarray(ps.k_lengths).tolist(), c["counts"]))
        if not np.all(kl[np.argsort(pin, kind="stable")] == np.sort(kl)):
            out.append("bins are not ordered by k-length")
    except Exception as e:
        out.append("PowerSpace raised %s: %s" % (type(e).__name__, str(e)[:120]))
    return out


# ---- identity ------------------------------------------------------------------------------------------------
def make_desc(ift, desc, entry, existing):
    # (the harmonic grid has distances that do not survive 1/(n (1/(n d))) in floating point: a pickle must carry them as they are)
    rg, rgh, un = ift.RGSpace(4), ift.RGSpace((7,), 0.2, harmonic=True), ift.UnstructuredDomain(2)
    tuples = {"T_rg": (rg,), "T_rgh": (rgh,), "T_rg_un": (rg, un), "T_un_rg": (un, rg), "T_power": (ift.PowerSpace(rgh),)}
    if entry == "pickle":
        return pickle.loads(pickle.dumps(existing))
    if desc in tuples:
        spaces = tuples[desc]
        if entry == "tuple_make":
            return ift.DomainTuple.make(spaces if len(spaces) > 1 else spaces[0])
        if entry == "tuple_remake":
            return ift.DomainTuple.make(existing)
        return ift.makeDomain(list(spaces))
    dct = {"M_ab": {"a": (rg,), "b": (rg, un)}, "M_a": {"a": (rg,)}, "M_b": {"b": (rg, un)}}[desc]
    if entry == "multi_make":
        return ift.MultiDomain.make(dct)
    if entry == "multi_make_rev":
        return ift.MultiDomain.make({k: dct[k] for k in reversed(list(dct))})
    if entry == "multi_union":
        return ift.MultiDomain.union([ift.MultiDomain.make({"a": (rg,)}), ift.MultiDomain.make({"b": (rg, un)})])
    return ift.makeDomain(dct)


def replay_history(ift, hist):
    objs = {}
    made = []
    for i, h in enumerate(hist):
        o = make_desc(ift, h["desc"], h["entry"], objs.get(h["desc"]))
        objs.setdefault(h["desc"], o)
        made.append(o)
    for i in range(len(hist)):
        for j in range(i):
            same_model = hist[i]["id"] == hist[j]["id"]
            if (made[i] is made[j]) != same_model:
                return "call %d (%s via %s) and call %d (%s via %s): identical object = %s, the cache model says %s" % (
                    j, hist[j]["desc"], hist[j]["entry"], i, hist[i]["desc"], hist[i]["entry"], made[i] is made[j], same_model)
            if (made[i] == made[j]) != same_model or (same_model and hash(made[i]) != hash(made[j])):
                return "call %d and call %d: == / hash disagree with the description" % (j, i)
    return None


FRESH = r'''
import sys, pickle
import nifty.cl as ift
objs = pickle.loads(sys.stdin.buffer.read())
rg, un = ift.RGSpace(4), ift.UnstructuredDomain(2)
local = [ift.DomainTuple.make((rg, un)), ift.MultiDomain.make({"b": (rg, un), "a": (rg,)}), ift.DomainTuple.make(ift.PowerSpace(ift.RGSpace(4, harmonic=True))),
         ift.DomainTuple.make(ift.RGSpace((7,), 0.2, harmonic=True)), ift.DomainTuple.make(ift.RGSpace((9,), 0.7).get_default_codomain()),
         ift.DomainTuple.make(ift.PowerSpace(ift.RGSpace((4, 5, 3), (1.1, 2.3, 0.7)).get_default_codomain()))]
ok = len(objs) == len(local) and all(a is b for a, b in zip(objs, local))
print("FRESH-OK" if ok else "FRESH-BAD")
'''


def run(ctx):
    import nifty.cl as ift
    q_ = ctx.quick
    r = ctx.tlc("PowerBins", "SPECIFICATION Spec\nINVARIANT Law\nINVARIANT Emit\n", label="harmonic grids and binnings", workers=1, timeout=1500)
    cfgs = r.emitted
    if len(cfgs) < 200:
        raise tlcmod.MachineryError("too few configurations: %d" % len(cfgs))
    with quiet():
        for c in cfgs:
            ctx.case((tuple(c["shape"]), json.dumps(c["d"]), c["binning"], json.dumps(c["bounds"])))
            viols, _ = check_config(ift, c)
            for msg in viols:
                ctx.violation(dict(kind="geometry", binning=c["binning"]), "harmonic RGSpace%s distances %s, %s binning %s: %s" % (
                    tuple(c["shape"]), [q(x) for x in c["d"]], c["binning"], [q(b) for b in c["bounds"]], msg), replay=dict(config=c))
        gv, ng = geometry_laws(ift)
    for msg in gv:
        ctx.violation(dict(kind="volume-law"), msg, replay=dict(what="laws"))
    lm = ctx.tlc("LMBins", "CONSTANTS MaxL = %d\nSPECIFICATION Spec\nINVARIANT SizeLaw\nINVARIANT BinLaw\nINVARIANT UniqueLaw\nINVARIANT Emit\n" % (5 if q_ else 7), label="spherical-harmonic spaces", workers=1, deadlock=False)
    with quiet():
        for c in lm.emitted:
            ctx.case(("lm", c["lmax"], c["mmax"]))
            for msg in check_lm(ift, c):
                ctx.violation(dict(kind="lm-geometry"), "LMSpace(%d, %d): %s" % (c["lmax"], c["mmax"], msg), replay=dict(lm=c))
    # ---- identity ------------------------------------------------------------------------------------------------
    ctx.tlc("DomainCache", "CONSTANTS MaxOps = %d\nEmitHist = FALSE\nSPECIFICATION Spec\nINVARIANT Canonical\nCHECK_DEADLOCK FALSE\n" % (3 if q_ else 4), label="cache histories")
    s = ctx.tlc("DomainCache", "CONSTANTS MaxOps = 7\nEmitHist = TRUE\nSPECIFICATION Spec\nINVARIANT Canonical\nINVARIANT Emit\nCHECK_DEADLOCK FALSE\n", label="simulated call histories",
                workers=1, simulate=300 if q_ else 3000, depth=8, seed=ctx.seed + 8)
    nh = 0
    for d in s.emitted:
        nh += 1
        ctx.case(("identity", json.dumps([(h["desc"], h["entry"]) for h in d["hist"]])))
        msg = replay_history(ift, d["hist"])
        if msg:
            ctx.violation(dict(kind="identity"), msg, replay=dict(hist=d["hist"]))
    rg, un = ift.RGSpace(4), ift.UnstructuredDomain(2)
    objs = [ift.DomainTuple.make((rg, un)), ift.MultiDomain.make({"a": (rg,), "b": (rg, un)}), ift.DomainTuple.make(ift.PowerSpace(ift.RGSpace(4, harmonic=True))),
            ift.DomainTuple.make(ift.RGSpace((7,), 0.2, harmonic=True)), ift.DomainTuple.make(ift.RGSpace((9,), 0.7).get_default_codomain()),
            ift.DomainTuple.make(ift.PowerSpace(ift.RGSpace((4, 5, 3), (1.1, 2.3, 0.7)).get_default_codomain()))]
    p = subprocess.run([sys.executable, "-c", FRESH], input=pickle.dumps(objs), stdout=subprocess.PIPE, stderr=subprocess.PIPE, timeout=300)
    ctx.case("fresh-process")
    if b"FRESH-OK" not in p.stdout:
        ctx.violation(dict(kind="identity", where="fresh-process"), "domains unpickled in a fresh process are not the canonical objects there: %s" % (p.stdout[-200:] + p.stderr[-300:]),
                      replay=dict(what="fresh"))
    ctx.traces += len(cfgs) + nh
    ctx.sample(dict(configuration=dict(shape=cfgs[5]["shape"], d=cfgs[5]["d"], binning=cfgs[5]["binning"], bounds=cfgs[5]["bounds"]), bins=cfgs[5]["bins"][:3]))
    ctx.notes.update(configurations=len(cfgs), identity_histories=nh, law_spaces=ng)
    ctx.assume("distances are dyadic rationals so that squared k-lengths are exact; the merging tolerance of nearly equal k-lengths (1e-12 relative) is not exercised",
               "Gauss-Legendre weights and pi are evaluated by NumPy; the sphere laws are total volume = sum of pixel volumes = 4 pi")


def replay(ctx, doc):
    import nifty.cl as ift
    c = doc["case"]
    if "lm" in c:
        with quiet():
            for msg in check_lm(ift, c["lm"]):
                ctx.violation(doc.get("key", dict(kind="lm-geometry")), msg, replay=c)
    if "config" in c:
        with quiet():
            viols, _ = check_config(ift, c["config"])
        for msg in viols:
            ctx.violation(doc.get("key", dict(kind="geometry")), msg, replay=c)
    elif "hist" in c:
        msg = replay_history(ift, c["hist"])
        if msg:
            ctx.violation(doc.get("key", dict(kind="identity")), msg, replay=c)
    ctx.case("replay")
    ctx.case("replay2")
    ctx.sample(dict(replayed=str(c)[:200]))
    ctx.states = ctx.transitions = 1


def selftest(ctx):
    import nifty.cl as ift
    r = tlcmod.run("PowerBins", "SPECIFICATION Spec\nINVARIANT Emit\n", workers=1, timeout=1500)
    c = next(x for x in r.emitted if x["binning"] == "natural" and len(x["shape"]) == 2)
    with quiet():
        good, _ = check_config(ift, c)
        c["pix"][1]["bin"] += 1
        bad, _ = check_config(ift, c)
    return dict(ok=(good == [] and len(bad) > 0), mutation="bin of one pixel changed in the expectation")
