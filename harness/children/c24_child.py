"""Child process of the C24 check: a small JAX VI run with an output directory under the crash injector."""
import os
import sys
sys.path.insert(0, os.path.join(os.path.dirname(os.path.abspath(__file__)), ".."))
import vf.crashfs as crashfs
crashfs.install()
import hashlib
import json
import logging
import numpy as np
import jax
import jax.numpy as jnp
jax.config.update("jax_enable_x64", True)
logging.disable(logging.CRITICAL)
import nifty.re as jft

ROOT = os.environ["CF_ROOT"]
NIT = int(os.environ.get("CF_NIT", "3"))
MODE = os.environ.get("CF_SAMPLE_MODE", "linear_resample")
NS = os.environ.get("CF_NSAMPLES", "1")
R = jnp.array([[1., 2., 0.], [0., 1., -1.]])
d = jnp.array([1., -2.])
lh = jft.Gaussian(d).amend(lambda x: jnp.tanh(R @ x["a"]), domain=jft.Vector({"a": jft.ShapeWithDtype((3,))}))
pos = jft.Vector({"a": jnp.array([0.3, -0.2, 0.1])})
odir = os.path.join(ROOT, "out")
n_samples = (lambda i: [1, 0, 2, 1, 2][i % 5]) if NS == "fn" else int(NS)
s, st = jft.optimize_kl(lh, pos, key=jax.random.PRNGKey(1), n_total_iterations=NIT, n_samples=n_samples, odir=odir,
                        resume=(os.environ.get("CF_RESUME") == "1"),
                        draw_linear_kwargs=dict(cg_name=None, cg_kwargs=dict(absdelta=1e-10)), sample_mode=MODE, jit=False,
                        nonlinearly_update_kwargs=dict(minimize_kwargs=dict(name=None, xtol=1e-8, cg_kwargs=dict(name=None), maxiter=4)),
                        kl_kwargs=dict(minimize_kwargs=dict(name=None, xtol=1e-8, cg_kwargs=dict(name=None), maxiter=5)))
leaves = [np.asarray(x) for x in jax.tree_util.tree_leaves((s.pos, s._samples, st.key))]
h = hashlib.sha256(b"".join(l.tobytes() for l in leaves) + str(st.nit).encode()).hexdigest()
# the rest of the optimisation state: sampling status and the result of the last KL minimisation
rest = jax.tree_util.tree_leaves((st.sample_state, st.minimization_state))
h2 = hashlib.sha256(b"".join(np.asarray(l).tobytes() for l in rest) + str(len(rest)).encode()).hexdigest()
with crashfs._real_open(os.environ["CF_RESULT"], "w") as f:
    json.dump(dict(hash=h + ":" + h2, nit=int(st.nit)), f)
