"""Child process of the C25 check: a small classic VI run with an output directory under the crash injector."""
import os
import sys
sys.path.insert(0, os.path.join(os.path.dirname(os.path.abspath(__file__)), ".."))
import vf.crashfs as crashfs
crashfs.install()
import hashlib
import json
import logging
import warnings
import numpy as np
import matplotlib
matplotlib.use("Agg")
import nifty.cl as ift
logging.disable(logging.CRITICAL)
warnings.simplefilter("ignore")

ROOT = os.environ["CF_ROOT"]
strategy = os.environ.get("CF_STRATEGY", "latest")
sched = os.environ.get("CF_SCHED", "111")
plots = os.environ.get("CF_PLOTS", "0") == "1"
total = int(os.environ.get("CF_TOTAL", str(len(sched))))
fresh = os.environ.get("CF_FRESH", "")
resume = os.environ.get("CF_RESUME") == "1"
# the seed sequence pushed for every iteration (identity = entropy + spawn key), logged next to the file-system events
import importlib
okl = importlib.import_module("nifty.cl.minimization.optimize_kl")
_push = okl.push_sseq
_first = 0
_mk = os.path.join(ROOT, "out", "last_finished_iteration")
if resume and os.path.exists(_mk):
    with crashfs._real_open(_mk) as f:
        _first = int(f.read()) + 1
_calls = [0]


def _logged_push(ss):
    with crashfs._real_open(os.path.join(ROOT, "streams.ndjson"), "a") as f:
        f.write(json.dumps(dict(resume=int(resume), it=_first + _calls[0], entropy=str(ss.entropy), key=[int(k) for k in ss.spawn_key],
                                k=crashfs._state["n"])) + "\n")
    _calls[0] += 1
    _push(ss)


okl.push_sseq = _logged_push
if resume and os.environ.get("CF_OTHERSTATE") == "1":
    ift.random.push_sseq_from_seed(987654)      # the restarted process is in another random state than the one that started the run
dom = ift.RGSpace(4)
d = ift.makeField(dom, np.array([1., 2., 3., 4.]))
lh = ift.GaussianEnergy(d, ift.ScalingOperator(dom, 4., np.float64)) @ (ift.FieldAdapter(dom, "a").exp())
ic = ift.AbsDeltaEnergyController(1e-8, iteration_limit=10)
mini = ift.NewtonCG(ift.AbsDeltaEnergyController(1e-6, iteration_limit=3))
res = ift.optimize_kl(lh, total, (lambda i: int(sched[i])), mini, ic, nonlinear_sampling_minimizer=None,
                      output_directory=os.path.join(ROOT, "out"), save_strategy=strategy,
                      plot_energy_history=plots, plot_minisanity_history=plots, resume=(os.environ.get("CF_RESUME") == "1"),
                      return_final_position=True, fresh_stochasticity=(True if not fresh else (lambda i: fresh[i] == "1")),
                      initial_position=ift.MultiField.from_dict({"a": ift.makeField(dom, np.array([.1, .2, .3, .4]))}))
sl, mean = res
h = hashlib.sha256()
n = 0
for s in sl.iterator():
    h.update(s["a"].asnumpy().tobytes())
    n += 1
h.update(mean["a"].asnumpy().tobytes())
with crashfs._real_open(os.environ["CF_RESULT"], "w") as f:
    json.dump(dict(hash=h.hexdigest(), n=n), f)
