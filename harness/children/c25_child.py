"""Child process of the C25 check: a small classic VI run with an output directory under the crash injector."""
import os
import sys
sys.path.insert(0, os.path.join(os.path.dirname(os.path.abspath(__file__)), ".."))
import vf.crashfs as crashfs
crashfs.install()
import hashlib
import json
import logging
import warnings
import numpy as np
import matplotlib
matplotlib.use("Agg")
import nifty.cl as ift
logging.disable(logging.CRITICAL)
warnings.simplefilter("ignore")

ROOT = os.environ["CF_ROOT"]
strategy = os.environ.get("CF_STRATEGY", "latest")
sched = os.environ.get("CF_SCHED", "111")
plots = os.environ.get("CF_PLOTS", "0") == "1"
total = int(os.environ.get("CF_TOTAL", str(len(sched))))
dom = ift.RGSpace(4)
d = ift.makeField(dom, np.array([1., 2., 3., 4.]))
lh = ift.GaussianEnergy(d, ift.ScalingOperator(dom, 4., np.float64)) @ (ift.FieldAdapter(dom, "a").exp())
ic = ift.AbsDeltaEnergyController(1e-8, iteration_limit=10)
mini = ift.NewtonCG(ift.AbsDeltaEnergyController(1e-6, iteration_limit=3))
res = ift.optimize_kl(lh, total, (lambda i: int(sched[i])), mini, ic, nonlinear_sampling_minimizer=None,
                      output_directory=os.path.join(ROOT, "out"), save_strategy=strategy,
                      plot_energy_history=plots, plot_minisanity_history=plots, resume=(os.environ.get("CF_RESUME") == "1"),
                      return_final_position=True,
                      initial_position=ift.MultiField.from_dict({"a": ift.makeField(dom, np.array([.1, .2, .3, .4]))}))
sl, mean = res
h = hashlib.sha256()
n = 0
for s in sl.iterator():
    h.update(s["a"].asnumpy().tobytes())
    n += 1
h.update(mean["a"].asnumpy().tobytes())
with crashfs._real_open(os.environ["CF_RESULT"], "w") as f:
    json.dump(dict(hash=h.hexdigest(), n=n), f)
